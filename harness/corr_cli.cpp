// C17: the option-driven command line. (a) the real get_v_opt() in-process against the Lean model of the parser, on a grid of
// option vectors; (b) the real Wencry binary (ASan/UBSan build, env WENCRY_BIN) as a subprocess: no crash, exit status 0 iff the
// operation succeeded, diagnostics otherwise, default output name, printed key restores the file.
#include "common.h"
#include "cry.h"
#include "getval.h"
#include "base64.h"
#include <limits.h>
#include <dirent.h>
#include <signal.h>
#include <sys/stat.h>

static std::string S(long v) { return std::to_string(v); }
extern "C" void wencry_verif_point(int, int) {}

// one option of a command line, as the grammar generates it
struct Opt { std::string tok;                 // token for the model ("" = produces no getopt result)
             std::vector<std::string> argv; };  // how it is spelled

static std::string scratch;
static const char *KEY_OK = "ABEiM0RVZneImaq7zN3u/w==";
static const unsigned char KEY_OK_BYTES[16] = {0x00, 0x11, 0x22, 0x33, 0x44, 0x55, 0x66, 0x77, 0x88, 0x99, 0xaa, 0xbb, 0xcc, 0xdd, 0xee, 0xff};

static std::string fdpath(FILE *f) {
  char link[64], buf[PATH_MAX + 1]; snprintf(link, sizeof link, "/proc/self/fd/%d", fileno(f));
  ssize_t n = readlink(link, buf, PATH_MAX); if (n < 0) return "?"; buf[n] = 0;
  std::string p = buf, pre = scratch + "/";
  if (p.compare(0, pre.size(), pre) == 0) p = p.substr(pre.size());
  return p;
}
static void write_file(const std::string &name, const bytes &b) { FILE *f = fopen(name.c_str(), "wb"); if (!f) return; if (!b.empty()) fwrite(b.data(), 1, b.size(), f); fclose(f); }
static bytes read_file(const std::string &name) { bytes b; FILE *f = fopen(name.c_str(), "rb"); if (!f) return b; int c; while ((c = fgetc(f)) != EOF) b.push_back((unsigned char)c); fclose(f); return b; }

// in-process run of the real parser on one vector
static std::string real_parse(const std::vector<std::string> &args, bool key_given) {
  std::vector<std::string> a = args; a.insert(a.begin(), "./Wencry");
  std::vector<char *> av; for (auto &s : a) av.push_back((char *)s.c_str()); av.push_back(NULL);
  u8_t *vals = get_v_opt((int)a.size(), av.data());
  if (vals == NULL) return "diag";
  vpak_t *p = (vpak_t *)vals;
  std::string r;
  if (p->mode == 'V' || p->mode == 'h') r = "info";
  else {
    std::string op(1, p->mode);
    r = "run " + op + " " + (p->fp ? hexs(fdpath(p->fp)) : std::string("null")) + " " + (p->out ? hexs(fdpath(p->out)) : std::string("null")) + " " +
        (p->key ? (key_given ? hex(p->key, 16) : std::string("*")) : std::string("null")) + " " + S(p->ctype) + " " + S(p->htype) + " " + S(p->no_echo ? 1 : 0);
  }
  if (p->fp) fclose(p->fp);
  if (p->out) fclose(p->out);
  delete[] p->key;
  delete p;
  return r;
}

static std::vector<Opt> mode_opts() {
  return { {"e", {"-e"}}, {"e", {"--encode"}}, {"d", {"-d"}}, {"d", {"--decode"}}, {"v", {"-v"}}, {"v", {"--verify"}}, {"V", {"-V"}}, {"V", {"--version"}}, {"h", {"-h"}}, {"h", {"--help"}} };
}
static Opt opt_i(const std::string &path, bool exists, bool lng = false) { return {"i:" + hexs(path) + ":" + (exists ? "1" : "0"), {lng ? "--input" : "-i", path}}; }
static Opt opt_o(const std::string &path, bool opens, bool lng = false) { return {"o:" + hexs(path) + ":" + (opens ? "1" : "0"), {lng ? "--output" : "-o", path}}; }
static Opt opt_k(const std::string &k, bool lng = false) { return {"k:" + hexs(k), {lng ? "--key" : "-k", k}}; }
static Opt opt_c(const std::string &v) { return {"c:" + hexs(v), {"--cmode", v}}; }
static Opt opt_h(const std::string &v) { return {"H:" + hexs(v), {"--hmode", v}}; }

static void restore_scratch_simple() { DIR *d = opendir("."); if (d) { struct dirent *e; std::vector<std::string> del; while ((e = readdir(d))) { std::string n = e->d_name; if (n.size() > 4 && (n.rfind(".wenc") == n.size() - 5 || n.compare(0, 3, "out") == 0)) del.push_back(n); } closedir(d); for (auto &n : del) unlink(n.c_str()); } }
static long g_vectors = 0;
static void vector_case(const std::vector<Opt> &opts) {
  g_vectors++;
  std::vector<std::string> args; std::string toks; bool key_given = false;
  for (auto &o : opts) { for (auto &s : o.argv) args.push_back(s); if (!o.tok.empty()) toks += " " + o.tok; if (o.tok.compare(0, 2, "k:") == 0) key_given = true; }
  if (tracing()) { std::string d = "argv:"; for (auto &s : args) d += " [" + s + "]"; trace_case("cli", d); }
  std::string real = real_parse(args, key_given);
  // remove whatever outputs the parse created (parsing -o / the default name opens "wb+")
  DIR *d = opendir("."); if (d) { struct dirent *e; while ((e = readdir(d))) { std::string n = e->d_name; if (n.size() > 4 && (n.rfind(".wenc") == n.size() - 5 || n.compare(0, 3, "out") == 0)) unlink(n.c_str()); } closedir(d); }
  emitM("cli", "cli 1" + toks, real);
}

static void suite_parse(Rng &rng) {
  // value classes
  std::string in_ok = "in.txt"; write_file(in_ok, rng.buf(100));
  std::vector<std::pair<std::string, bool>> inputs = {{in_ok, true}, {"nope.txt", false}};
  for (int len : {100, 122, 123, 127, 200}) { std::string n(len, 'a'); n[0] = 'L'; write_file(n, rng.buf(10)); inputs.push_back({n, true}); }
  inputs.push_back({std::string(4000, 'z'), false});
  std::vector<std::pair<std::string, bool>> outputs = {{"out.bin", true}, {"nodir/out.bin", false}, {"out2", true}};
  std::vector<std::string> keys = {KEY_OK, "AAAAAAAAAAAAAAAAAAAAAAA==", "AAAAAAAAAAAAAAAAAAAAAAAA==", "AAAAAAAAAAAAAAAAAAAAAAAAA==", "AAAAAAAAAAAAAAAAAAAAAA==", "AAAAAAAAAAAAAAAAAAAAAAA=", "AAAAAAAAAAAAAAAAAAAAAAAA", "ABEiM0RVZneImaq7zN3u/w=", "ABEiM0RVZneImaq7zN3u_w==", "short==", "",
                                   "ABEiM0RVZneImaq7zN3u/w==AAAA", "====================1234", "ABEiM0RVZne=maq7zN3u/w=="};
  std::vector<std::string> cmodes = {"-1", "0", "1", "2", "3", "4", "5", "7", "255", "256", "257", "260", "300", "512", "-256", "65537", "abc", "", " 2", "+3", "4x", "-0"};
  std::vector<std::string> hmodes = {"-1", "0", "1", "2", "3", "256", "258", "-255", "x", ""};
  auto modes = mode_opts();
  // (1) every single mode, every pair of modes, with presence/absence of i, o, k
  for (size_t m1 = 0; m1 < modes.size(); m1 += 1) for (int mask = 0; mask < 8; mask++) {
    std::vector<Opt> v = {modes[m1]};
    if (mask & 1) v.push_back(opt_i(in_ok, true, mask & 4)); if (mask & 2) v.push_back(opt_o("out.bin", true)); if (mask & 4) v.push_back(opt_k(KEY_OK, mask & 1));
    vector_case(v);
    std::vector<Opt> w = v; std::reverse(w.begin(), w.end()); vector_case(w);
  }
  for (size_t m1 = 0; m1 < modes.size(); m1 += 2) for (size_t m2 = 0; m2 < modes.size(); m2 += 2) vector_case({modes[m1], opt_i(in_ok, true), opt_k(KEY_OK), opt_o("out.bin", true), modes[m2]});
  vector_case({}); vector_case({opt_i(in_ok, true)}); vector_case({opt_k(KEY_OK)});
  // (2) every value class of every option, for each of e / d / v
  for (const char *md : {"e", "d", "v"}) {
    Opt M = {md, {std::string("-") + md}};
    for (auto &in : inputs) { vector_case({M, opt_i(in.first, in.second), opt_k(KEY_OK), opt_o("out.bin", true)}); vector_case({M, opt_i(in.first, in.second), opt_k(KEY_OK)}); vector_case({M, opt_i(in.first, in.second)}); }
    for (auto &o : outputs) vector_case({M, opt_i(in_ok, true), opt_k(KEY_OK), opt_o(o.first, o.second, true)});
    for (auto &k : keys) { vector_case({M, opt_i(in_ok, true), opt_k(k), opt_o("out.bin", true)}); vector_case({opt_k(k, true), M, opt_i(in_ok, true)}); }
    for (auto &c : cmodes) { vector_case({M, opt_i(in_ok, true), opt_k(KEY_OK), opt_o("out.bin", true), opt_c(c)}); vector_case({opt_c(c), M, opt_i(in_ok, true)}); }
    for (auto &h : hmodes) { vector_case({M, opt_i(in_ok, true), opt_k(KEY_OK), opt_o("out.bin", true), opt_h(h)}); vector_case({opt_h(h), opt_c("2"), M, opt_i(in_ok, true)}); }
    // options given twice
    vector_case({M, opt_i(in_ok, true), opt_i("nope.txt", false), opt_k(KEY_OK), opt_o("out.bin", true)});
    vector_case({M, opt_i("nope.txt", false), opt_i(in_ok, true), opt_k(KEY_OK), opt_o("out.bin", true)});
    vector_case({M, opt_i(in_ok, true), opt_i(inputs[2].first, true), opt_k(KEY_OK), opt_o("out.bin", true), opt_o("out2", true)});
    vector_case({M, opt_i(in_ok, true), opt_k(KEY_OK), opt_k("AAAAAAAAAAAAAAAAAAAAAA=="), opt_o("out.bin", true)});
    vector_case({M, opt_i(in_ok, true), opt_k(KEY_OK), opt_k("not-a-key"), opt_o("out.bin", true)});
    vector_case({M, opt_i(in_ok, true), opt_k("not-a-key"), opt_k(KEY_OK), opt_o("out.bin", true)});
    vector_case({M, opt_k(KEY_OK), opt_k(KEY_OK), opt_k("AAAA"), opt_i(in_ok, true)});
    vector_case({M, opt_i(in_ok, true), opt_k(KEY_OK), opt_o("out.bin", true), {"?", {"-x"}}});
    vector_case({M, opt_i(in_ok, true), opt_o("out.bin", true), opt_k(KEY_OK), opt_c("9")});
    vector_case({M, opt_i(in_ok, true), opt_c("1"), opt_c("2")}); vector_case({M, opt_i(in_ok, true), opt_h("1"), opt_h("1")}); vector_case({M, opt_i(in_ok, true), opt_c("-1"), opt_c("2")});
    // unknown options, -m, a missing argument at the end, an option swallowed as an argument, stray words
    vector_case({M, opt_i(in_ok, true), {"?", {"-x"}}}); vector_case({M, {"?", {"--bogus"}}, opt_i(in_ok, true)}); vector_case({M, opt_i(in_ok, true), {"m:" + hexs("3"), {"-m", "3"}}});
    vector_case({M, opt_i(in_ok, true), {"?", {"-k"}}}); vector_case({M, opt_i(in_ok, true), opt_k(KEY_OK), {"?", {"-o"}}}); vector_case({M, opt_i(in_ok, true), {"?", {"--cmode"}}});
    vector_case({M, opt_i(in_ok, true), opt_o("-k", true), {"", {KEY_OK}}});          // "-o -k KEY": the output is named "-k", KEY is a stray word
    vector_case({M, opt_i(in_ok, true), opt_k(KEY_OK), opt_o("out.bin", true), {"", {"stray"}}, {"n", {"-n"}}}); vector_case({M, {"n", {"--no_echo"}}, opt_i(in_ok, true), opt_k(KEY_OK), opt_o("out.bin", true)});
  }
  // (3) random vectors
  long n = tier_thorough() ? 20000 : 1500;
  for (long i = 0; i < n; i++) {
    std::vector<Opt> v; int cnt = 1 + rng.below(6);
    for (int j = 0; j < cnt; j++) {
      switch (rng.below(9)) {
        case 0: case 1: v.push_back(modes[rng.below((uint32_t)modes.size())]); break;
        case 2: { auto &in = inputs[rng.below((uint32_t)inputs.size())]; v.push_back(opt_i(in.first, in.second, rng.below(2))); break; }
        case 3: { auto &o = outputs[rng.below((uint32_t)outputs.size())]; v.push_back(opt_o(o.first, o.second, rng.below(2))); break; }
        case 4: v.push_back(opt_k(keys[rng.below((uint32_t)keys.size())], rng.below(2))); break;
        case 5: v.push_back(opt_c(cmodes[rng.below((uint32_t)cmodes.size())])); break;
        case 6: v.push_back(opt_h(hmodes[rng.below((uint32_t)hmodes.size())])); break;
        case 7: v.push_back({"n", {"-n"}}); break;
        default: if (rng.below(3) == 0) v.push_back({"?", {"-q"}}); else v.push_back({"", {"word"}}); break;
      }
    }
    vector_case(v);
  }
  emitI("cli", "vectors", S(g_vectors));
}

// ---- C15: parses repeated in one process behave as in a fresh process (getopt cursor, default output name)
static std::string parse_fresh(const std::vector<std::string> &args, bool key_given) {
  int p[2]; if (pipe(p) != 0) abort();
  fflush(g_proto);
  pid_t pid = fork();
  if (pid == 0) { close(p[0]); std::string r = real_parse(args, key_given); ssize_t w = write(p[1], r.data(), r.size()); (void)w; _exit(0); }
  close(p[1]); std::string r; char buf[4096]; ssize_t n; while ((n = read(p[0], buf, sizeof buf)) > 0) r.append(buf, n);
  close(p[0]); int st; waitpid(pid, &st, 0); if (!WIFEXITED(st) || WEXITSTATUS(st) != 0) r = "crash"; return r;
}
static void suite_parsehist(Rng &rng) {
  std::string in_ok = "in.txt"; write_file(in_ok, rng.buf(100));
  std::string in2 = "second-input-file.dat"; write_file(in2, rng.buf(50));
  std::vector<std::vector<std::string>> pool = {
    {"-e", "-i", in_ok, "-k", KEY_OK, "-o", "out.bin", "--cmode", "3", "--hmode", "2"}, {"--cmode", "2", "--hmode", "1", "-e", "-i", in_ok, "-o", "out.bin"},
    {"-d", "-i", in_ok, "-k", KEY_OK, "-o", "out2"}, {"-v", "-i", in2, "-k", KEY_OK}, {"-e", "-i", in2},
    {"-v", "-k", "not-a-base64-key"}, {"-e", "-d", "-i", in_ok}, {"-e", "-i", "nope.txt"}, {"-e", "-i", in_ok, "-x"}, {"-e", "-i", in_ok, "--cmode", "9"},
    {"-d", "-i", in_ok, "-o", "nodir/x", "-k", KEY_OK}, {"-e", "-i", in_ok, "--cmode", "1", "--cmode", "2"}, {"-V"}, {"-h"}, {"-e"}, {"-i", in_ok}, {"-e", "-i", in_ok, "-k", "short"} };
  long hist = tier_thorough() ? 600 : 120, steps = 0;
  for (long hi = 0; hi < hist; hi++) {
    int len = 2 + rng.below(4); std::string trail;
    for (int s = 0; s < len; s++) {
      auto &a = pool[rng.below((uint32_t)pool.size())]; bool kg = std::find(a.begin(), a.end(), "-k") != a.end();
      std::string d = "[" ; for (auto &x : a) d += " " + x; d += " ]"; trail += d;
      trace_case("parsehist", trail);
      std::string fresh = parse_fresh(a, kg), here = real_parse(a, kg); steps++;
      DIR *dd = opendir("."); if (dd) { struct dirent *e; while ((e = readdir(dd))) { std::string n = e->d_name; if (n.size() > 4 && (n.rfind(".wenc") == n.size() - 5 || n.compare(0, 3, "out") == 0)) unlink(n.c_str()); } closedir(dd); }
      if (fresh != here) { emitA("parsehist", "C15", "command line " + S(s) + " of a history parsed in one process gives [" + here + "] but [" + fresh + "] in a fresh process; history: " + trail); break; }
    }
  }
  emitI("parsehist", "parses", S(steps));
}


// ---- C17 + C15 at the level of raw argv words: histories of command lines run one after the other in this process; every
// outcome is compared (M) with the Lean model of getopt_long + get_v_opt (Model/Getopt.lean, `argv` driver command), and (A)
// with the same command line parsed in a fresh process. The scratch directory is put back after every command line.
static bool simple_name(const std::string &w) { return !w.empty() && w.size() <= 200 && w.find('/') == std::string::npos && w != "." && w != ".." && w != "sub"; }
static bool can_create(const std::string &w) { if (simple_name(w)) return true; return w.compare(0, 4, "sub/") == 0 && simple_name(w.substr(4)); }
static std::vector<std::string> g_fixed_inputs;
static void restore_scratch() {
  DIR *d = opendir("."); if (d) { struct dirent *e; std::vector<std::string> del; while ((e = readdir(d))) { std::string n = e->d_name; if (n == "." || n == ".." || n == "sub") continue; if (std::find(g_fixed_inputs.begin(), g_fixed_inputs.end(), n) != g_fixed_inputs.end()) continue; del.push_back(n); } closedir(d); for (auto &n : del) unlink(n.c_str()); }
  d = opendir("sub"); if (d) { struct dirent *e; std::vector<std::string> del; while ((e = readdir(d))) { std::string n = e->d_name; if (n == "." || n == "..") continue; del.push_back("sub/" + n); } closedir(d); for (auto &n : del) unlink(n.c_str()); }
}
static const char *KEY2 = "AAAAAAAAAAAAAAAAAAAAAA=="; // sixteen zero bytes
static std::string real_parse_raw(const std::vector<std::string> &args) {
  std::vector<std::string> a = args; a.insert(a.begin(), "./Wencry");
  std::vector<char *> av; for (auto &s : a) av.push_back((char *)s.c_str()); av.push_back(NULL);
  u8_t *vals = get_v_opt((int)a.size(), av.data());
  if (vals == NULL) return "diag";
  vpak_t *p = (vpak_t *)vals; std::string r;
  if (p->mode == 'V' || p->mode == 'h') r = "info";
  else {
    static const unsigned char zero16[16] = {0};
    std::string k = "null";
    if (p->key) k = (memcmp(p->key, KEY_OK_BYTES, 16) == 0 || memcmp(p->key, zero16, 16) == 0) ? hex(p->key, 16) : std::string("*");
    r = "run " + std::string(1, p->mode) + " " + (p->fp ? hexs(fdpath(p->fp)) : std::string("null")) + " " + (p->out ? hexs(fdpath(p->out)) : std::string("null")) + " " + k + " " + S(p->ctype) + " " + S(p->htype) + " " + S(p->no_echo ? 1 : 0);
  }
  if (p->fp) fclose(p->fp);
  if (p->out) fclose(p->out);
  delete[] p->key; delete p;
  return r;
}
static std::string parse_fresh_raw(const std::vector<std::string> &args) {
  int p[2]; if (pipe(p) != 0) abort();
  fflush(g_proto);
  pid_t pid = fork();
  if (pid == 0) { close(p[0]); std::string r = real_parse_raw(args); ssize_t w = write(p[1], r.data(), r.size()); (void)w; _exit(0); }
  close(p[1]); std::string r; char buf[4096]; ssize_t n; while ((n = read(p[0], buf, sizeof buf)) > 0) r.append(buf, n);
  close(p[0]); int st; waitpid(pid, &st, 0); if (!WIFEXITED(st) || WEXITSTATUS(st) != 0) r = "crash"; return r;
}
static std::string hexw(const std::string &w) { return w.empty() ? std::string("~") : hexs(w); }
static void suite_argvhist(Rng &rng) {
  std::string in_ok = "in.txt", in2 = "second-input-file.dat", inlong(126, 'L');
  std::string inpct = "100%done.txt", inpct2 = "a%s%n.bin";
  write_file(in_ok, rng.buf(100)); write_file(in2, rng.buf(50)); write_file(inlong, rng.buf(10)); write_file(inpct, rng.buf(20)); write_file(inpct2, rng.buf(20));
  g_fixed_inputs = {in_ok, in2, inlong, inpct, inpct2};
  const std::vector<std::string> modes = {"-e", "-d", "-v", "-V", "-h", "--encode", "--decode", "--verify", "--version", "--help", "--enc", "--dec", "--veri", "--vers", "--he", "--e", "--d",
    "-e", "-d", "-v", "-e", "-d", "-v",                                          // weight on the plain forms
    "-en", "-dn", "-vn", "-ne", "-nd", "-nv", "-de", "-he", "-dec", "-ver", "-enc", "-no", "-hn", "-Vn"};   // a mode given inside a cluster (some clusters spell the beginning of a long option)
  const std::vector<std::string> flags = {"-n", "--no_echo", "--no", "--n", "-ne", "-en", "-nd", "-nv", "-nn"};
  const std::vector<std::string> bad = {"-x", "-Z", "-:", "-;", "--bogus", "--bogus=1", "--ver", "--v", "--", "-", "--=x", "--encode=1", "--help=", "-m", "-m1", "-eZ", "-eZq", "-edv", "-dve", "-ved", "-nZe", "-eex", "-e:", "--cmode", "--key", "-k", "-i", "-o", "--c", "--h", "--hm", "--cm", "--o", "--i", "--k", "--ke"};
  const std::vector<std::string> ins = {in_ok, in2, "nope.txt", inlong, "", "out.bin", inpct, inpct2};
  const std::vector<std::string> outs = {"out.bin", "out2", "sub/y", "nodir/x", "", in_ok, "-e"};
  const std::vector<std::string> keys = {KEY_OK, KEY2, "not-a-key", "short", "ABEiM0RVZneImaq7zN3u/w=", "", std::string(" ") + KEY_OK, std::string("  ") + KEY_OK, std::string("\t") + KEY_OK, std::string(KEY_OK) + " ", std::string(KEY_OK) + "\n",
    "ABEiM0RVZneImaq7zN3u/ww==", "ABEiM0RVZneImaq7zN3u/www==", "ABEiM0RVZneImaq7zN3u/wwww==", "ABEiM0RVZneImaq7zN3u/w===", "=BEiM0RVZneImaq7zN3u/w=="};
  const std::vector<std::string> nums = {"0", "1", "2", "3", "4", "5", "9", "-1", " 2", "2x", "", "256", "+1", "99999999999999999999", "-99999999999999999999", "4294967297", "1e0", "0x2"};
  auto pick = [&](const std::vector<std::string> &v) { return v[rng.below((uint32_t)v.size())]; };
  auto with_arg = [&](std::vector<std::string> &out, const std::string &sh, const std::vector<std::string> &longs, const std::string &val) {
    switch (rng.below(5)) {
      case 0: out.push_back(sh); out.push_back(val); break;
      case 1: if (!val.empty()) { out.push_back(sh + val); break; } out.push_back(sh); out.push_back(val); break;
      case 2: out.push_back(pick(longs)); out.push_back(val); break;
      case 3: out.push_back(pick(longs) + "=" + val); break;
      default: { std::string fl = rng.below(6) ? std::string("-n") : pick({"-e", "-d", "-v"}); out.push_back(fl + sh.substr(1) + val); if (val.empty()) out.push_back(val); } break; } };
  auto gen_cmd = [&]() {
    std::vector<std::string> a; int kind = (int)rng.below(10);
    if (kind < 6) {               // mostly valid, random spelling: an operation with (almost always) everything it needs
      std::vector<std::vector<std::string>> parts; std::vector<std::string> t;
      int op = (int)rng.below(3);                                  // 0 encrypt, 1 decrypt, 2 verify
      static const char *plain_mode[3] = {"-e", "-d", "-v"}; static const char *long_mode[3] = {"--encode", "--decode", "--verify"};
      t.clear(); t.push_back(rng.below(10) == 0 ? pick(modes) : rng.below(3) ? std::string(plain_mode[op]) : std::string(long_mode[op])); parts.push_back(t);
      auto okval = [&](const std::vector<std::string> &alts, const std::string &good) { return rng.below(8) ? good : pick(alts); };
      if (rng.below(25)) { t.clear(); with_arg(t, "-i", {"--input", "--in", "--inp"}, okval(ins, rng.below(4) ? in_ok : in2)); parts.push_back(t); }
      if (op == 1 ? rng.below(15) != 0 : rng.below(2)) { t.clear(); with_arg(t, "-o", {"--output", "--out", "--outp"}, okval(outs, rng.below(3) ? "out.bin" : "sub/y")); parts.push_back(t); }
      if (op != 0 ? rng.below(15) != 0 : rng.below(5) < 2) { t.clear(); with_arg(t, "-k", {"--key", "--ke"}, okval(keys, rng.below(3) ? KEY_OK : KEY2)); parts.push_back(t); }
      if (rng.below(5) < 2) { t.clear(); std::string v = okval(nums, std::string(1, (char)('0' + rng.below(5)))); if (rng.below(2)) { t.push_back(pick({"--cmode", "--cm", "--cmod"})); t.push_back(v); } else t.push_back("--cmode=" + v); parts.push_back(t); }
      if (rng.below(5) < 2) { t.clear(); std::string v = okval(nums, std::string(1, (char)('0' + rng.below(3)))); if (rng.below(2)) { t.push_back(pick({"--hmode", "--hm"})); t.push_back(v); } else t.push_back("--hmode=" + v); parts.push_back(t); }
      if (!rng.below(4)) { t.clear(); t.push_back(pick({"-n", "--no_echo", "--no", "--n", "-nn"})); parts.push_back(t); }
      if (!rng.below(12)) { t.clear(); t.push_back(pick(flags)); parts.push_back(t); }
      if (!rng.below(14)) { t.clear(); t.push_back(pick(bad)); parts.push_back(t); }
      if (!rng.below(6)) { t.clear(); t.push_back(pick({"stray", "in.txt", "x", "-"})); parts.push_back(t); }   // non-option words
      for (size_t i = parts.size(); i > 1; i--) std::swap(parts[i - 1], parts[rng.below((uint32_t)i)]);
      for (auto &pp : parts) for (auto &w : pp) a.push_back(w);
    } else if (kind < 8) {        // a command line abandoned inside an option cluster
      a.push_back(pick({"-edv", "-eZq", "-dve", "-ved", "-eex", "-nZe", "-ddn", "-vvi", "-eeo", "-ddk", "-hVe", "-Ven"}));
      if (rng.below(2)) { a.push_back("-i"); a.push_back(in_ok); }
      if (rng.below(2)) a.insert(a.begin(), pick(modes));
    } else {                      // word soup
      int n = 1 + (int)rng.below(6);
      for (int i = 0; i < n; i++) switch (rng.below(7)) { case 0: a.push_back(pick(modes)); break; case 1: a.push_back(pick(flags)); break; case 2: a.push_back(pick(bad)); break;
        case 3: a.push_back(pick(ins)); break; case 4: a.push_back(pick(outs)); break; case 5: a.push_back(pick(keys)); break; default: a.push_back(pick(nums)); break; }
    }
    return a; };
  long hist = tier_thorough() ? 4000 : 500, steps = 0, aborted = 0, accepted = 0;
  for (long hi = 0; hi < hist; hi++) {
    int len = 1 + (int)rng.below(4);
    std::vector<std::vector<std::string>> cmds; for (int s = 0; s < len; s++) cmds.push_back(gen_cmd());
    // environment lists for the model: existing files; creatable = every possible option argument (suffixes of words, text after '=') that can be created, and its default output name
    std::vector<std::string> creat;
    auto consider = [&](const std::string &w) { if (can_create(w) && std::find(creat.begin(), creat.end(), w) == creat.end()) creat.push_back(w); std::string d = (w + ".wenc").substr(0, 127); if (can_create(d) && std::find(creat.begin(), creat.end(), d) == creat.end()) creat.push_back(d); };
    for (auto &c : cmds) for (auto &w : c) { for (size_t k = 0; k <= w.size(); k++) consider(w.substr(k)); }
    std::string req = "argv fixed ";
    for (size_t i = 0; i < g_fixed_inputs.size(); i++) req += (i ? "," : "") + hexs(g_fixed_inputs[i]);
    req += " "; if (creat.empty()) req += "-"; for (size_t i = 0; i < creat.size(); i++) req += (i ? "," : "") + hexw(creat[i]);
    // the whole history runs in a forked child (a process of its own, so that a failure is reproduced by this history alone);
    // inside it every command line is parsed in-process and, for comparison, in a fresh grand-child
    std::string trail_all; for (auto &c : cmds) { req += " ; " + hexs("./Wencry"); for (auto &w : c) req += " " + hexw(w); std::string d = "["; for (auto &x : c) d += " '" + x + "'"; d += " ]"; trail_all += d; }
    trace_case("argvhist", trail_all);
    int pp[2]; if (pipe(pp) != 0) abort();
    fflush(g_proto);
    pid_t pid = fork();
    if (pid == 0) {
      close(pp[0]);
      for (size_t s = 0; s < cmds.size(); s++) {
        std::string fresh = parse_fresh_raw(cmds[s]); restore_scratch();
        std::string mark = "B\t" + S((long)s) + "\n"; ssize_t w0 = write(pp[1], mark.data(), mark.size()); (void)w0;
        std::string here = real_parse_raw(cmds[s]); restore_scratch();
        std::string ln = "R\t" + here + "\t" + fresh + "\n"; ssize_t w1 = write(pp[1], ln.data(), ln.size()); (void)w1;
      }
      _exit(0);
    }
    close(pp[1]); std::string res; { char buf[4096]; ssize_t n; while ((n = read(pp[0], buf, sizeof buf)) > 0) res.append(buf, n); } close(pp[0]);
    int st = 0; waitpid(pid, &st, 0); restore_scratch();
    std::string real; size_t done = 0, begun = 0; bool diverged = false; size_t pos = 0;
    while (pos < res.size()) { size_t e = res.find('\n', pos); if (e == std::string::npos) break; std::string ln = res.substr(pos, e - pos); pos = e + 1;
      if (ln.compare(0, 2, "B\t") == 0) { begun++; continue; }
      if (ln.compare(0, 2, "R\t") != 0) continue;
      size_t t = ln.find('\t', 2); std::string here = ln.substr(2, t - 2), fresh = ln.substr(t + 1);
      steps++; if (here == "diag") aborted++; else accepted++;
      real += (done ? " | " : "") + here;
      if (fresh != here && !diverged) { diverged = true; emitA("argvhist", "C15", "command line " + S((long)done) + " of a history parsed in one process gives [" + here + "] but [" + fresh + "] in a fresh process; history: " + trail_all); }
      done++; }
    if (!WIFEXITED(st) || WEXITSTATUS(st) != 0) {
      emitA("argvhist", "C15", "the parser crashed (wait status " + S(st) + ") on command line " + S((long)(begun ? begun - 1 : 0)) + " of a history parsed in one process (each command line alone parses without a crash in a fresh process); history: " + trail_all);
      continue; }
    emitM("argvhist", req, real);
  }
  emitI("argvhist", "command_lines", S(steps)); emitI("argvhist", "rejected", S(aborted)); emitI("argvhist", "accepted", S(accepted));
}

// ---- the real binary
struct Run { int status; int sig; std::string out; };
static Run run_bin(const std::vector<std::string> &args, const char *stdin_file = NULL) {
  const char *bin = getenv("WENCRY_BIN");
  Run r{-1, 0, ""};
  int p[2]; if (pipe(p) != 0) return r;
  fflush(g_proto);
  pid_t pid = fork();
  if (pid == 0) {
    dup2(p[1], 1); dup2(p[1], 2); close(p[0]); close(p[1]);
    { int in = open(stdin_file ? stdin_file : "/dev/null", O_RDONLY); if (in >= 0) { dup2(in, 0); close(in); } }
    std::vector<std::string> a = args; a.insert(a.begin(), bin);
    std::vector<char *> av; for (auto &s : a) av.push_back((char *)s.c_str()); av.push_back(NULL);
    setenv("ASAN_OPTIONS", "detect_leaks=0:new_delete_type_mismatch=0:exitcode=99", 1);
    alarm(60);
    execv(bin, av.data()); _exit(127);
  }
  close(p[1]);
  char buf[4096]; ssize_t n; while ((n = read(p[0], buf, sizeof buf)) > 0) r.out.append(buf, n);
  close(p[0]);
  int st; waitpid(pid, &st, 0);
  if (WIFEXITED(st)) r.status = WEXITSTATUS(st); else if (WIFSIGNALED(st)) { r.status = -1; r.sig = WTERMSIG(st); }
  return r;
}
static long g_runs = 0;
// expected: "ok" (exit 0), "fail" (non-zero exit with output printed), or the model decides via clistatus
static void bin_case(const std::vector<Opt> &opts, int opres /* 1 success expected, 0 failure expected, -1 unknown/irrelevant */, const std::string &note) {
  g_runs++;
  std::vector<std::string> args; std::string toks;
  for (auto &o : opts) { for (auto &s : o.argv) args.push_back(s); if (!o.tok.empty()) toks += " " + o.tok; }
  std::string d = "argv:"; for (auto &s : args) d += " [" + (s.size() > 150 ? s.substr(0, 150) + "...(" + S((long)s.size()) + ")" : s) + "]";
  trace_case("bin", d);
  std::vector<std::pair<std::string, bytes>> snap;      // inputs named by -i that exist, and are not also the output
  for (size_t i = 0; i + 1 < args.size(); i++) if (args[i] == "-i" || args[i] == "--input") { const std::string &pth = args[i + 1]; bool isout = false;
    for (size_t j = 0; j + 1 < args.size(); j++) if ((args[j] == "-o" || args[j] == "--output") && args[j + 1] == pth) isout = true;
    if (!isout && pth.size() < 250 && access(pth.c_str(), R_OK) == 0) snap.push_back({pth, read_file(pth)}); }
  Run r = run_bin(args);
  for (auto &sn : snap) if (read_file(sn.first) != sn.second) emitA("bin", "C12", "the input file was modified by the run: " + d + " -- " + note);
  if (r.sig != 0 || r.status == 99 || r.status == 98 || r.status == 127) { emitA("bin", "C17", "the program crashed (signal " + S(r.sig) + ", status " + S(r.status) + ") on " + d + " -- " + note + " -- output tail: " + hexs(r.out.substr(r.out.size() > 300 ? r.out.size() - 300 : 0))); return; }
  if (r.status != 0 && r.out.empty()) emitA("bin", "C17", "non-zero exit without any diagnostic on " + d);
  if (opres >= 0) {
    emitM("bin", "cli status 1 " + S(opres) + toks, S(r.status));
    if ((r.status == 0) != (opres == 1 && true)) { /* the model line decides for parse errors; for run outcomes: */ }
  }
}
static void suite_bin(Rng &rng) {
  if (!getenv("WENCRY_BIN")) { emitI("bin", "skipped", "no WENCRY_BIN"); return; }
  bytes plain = rng.buf(300); write_file("p.txt", plain);
  // default output name and the printed key
  { unlink("p.txt.wenc");
    Run r = run_bin({"-e", "-i", "p.txt"});
    g_runs++;
    if (r.status != 0) emitA("bin", "C17", "-e -i F failed, status " + S(r.status));
    bytes enc = read_file("p.txt.wenc");
    if (enc.size() != 48 + 80 + 16 * (300 / 16 + 1)) emitA("bin", "C17", "-e -i F did not write F.wenc of the documented size (got " + S((long)enc.size()) + ")");
    size_t k = r.out.find("Key is:"); std::string key;
    if (k != std::string::npos) { size_t e = r.out.find('\n', k); std::string line = r.out.substr(k + 7, e - k - 7); size_t b = line.find_first_not_of(" \r"); size_t l = line.find_last_not_of(" \r"); if (b != std::string::npos) key = line.substr(b, l - b + 1); }
    if (key.size() != 24) emitA("bin", "C17", "no 24-character key printed by -e (got '" + key + "')");
    else {
      unlink("p.out");
      Run d = run_bin({"-d", "-i", "p.txt.wenc", "-k", key, "-o", "p.out"}); g_runs++;
      if (d.status != 0) emitA("bin", "C17", "-d with the printed key failed, status " + S(d.status));
      else if (read_file("p.out") != plain) emitA("bin", "C17", "-d with the printed key did not restore the file");
      Run v = run_bin({"-v", "-i", "p.txt.wenc", "-k", key}); g_runs++;
      if (v.status != 0) emitA("bin", "C17", "-v with the printed key failed, status " + S(v.status));
      // wrong key: non-zero
      Run w = run_bin({"-d", "-i", "p.txt.wenc", "-k", KEY_OK, "-o", "p.out2"}); g_runs++;
      if (w.status == 0 || w.sig) emitA("bin", "C17", "-d with a wrong key: status " + S(w.status) + " signal " + S(w.sig));
      Run w2 = run_bin({"-v", "-i", "p.txt.wenc", "-k", KEY_OK}); g_runs++;
      if (w2.status == 0 || w2.sig) emitA("bin", "C17", "-v with a wrong key: status " + S(w2.status) + " signal " + S(w2.sig));
    }
  }
  // a valid file under the known key, for the status grid
  { unlink("g.wenc"); Run r = run_bin({"-e", "-i", "p.txt", "-k", KEY_OK, "-o", "g.wenc", "--cmode", "2", "--hmode", "2"}); g_runs++; if (r.status != 0) emitA("bin", "C17", "-e with explicit options failed, status " + S(r.status)); }
  write_file("garbage.bin", rng.buf(500));
  std::string long122(122, 'b'), long123(123, 'c'), long200(200, 'd'); write_file(long122, plain); write_file(long123, plain); write_file(long200, plain);
  Opt E{"e", {"-e"}}, D{"d", {"-d"}}, V{"v", {"-v"}};
  bin_case({E, opt_i("p.txt", true), opt_o("out1", true)}, 1, "plain encryption");
  bin_case({E, opt_i("p.txt", true)}, 1, "default output");
  bin_case({E, opt_i(long122, true)}, 1, "122-character input path, default output");
  bin_case({E, opt_i(long123, true)}, 1, "123-character input path, default output name does not fit");
  bin_case({E, opt_i(long200, true)}, 1, "200-character input path");
  bin_case({E, opt_i(long200, true), opt_o("out2", true)}, 1, "200-character input path with -o");
  bin_case({E, opt_i(std::string(4000, 'q'), false)}, 1, "4000-character input path");
  bin_case({D, opt_i("g.wenc", true), opt_k(KEY_OK), opt_o("out3", true)}, 1, "valid decryption");
  bin_case({V, opt_i("g.wenc", true), opt_k(KEY_OK)}, 1, "valid verification");
  bin_case({D, opt_i("g.wenc", true), opt_k("AAAAAAAAAAAAAAAAAAAAAA=="), opt_o("out4", true)}, 0, "wrong key");
  bin_case({V, opt_i("garbage.bin", true), opt_k(KEY_OK)}, 0, "garbage input");
  bin_case({D, opt_i("garbage.bin", true), opt_k(KEY_OK), opt_o("out5", true)}, 0, "garbage input");
  bin_case({D, opt_i("g.wenc", true)}, 0, "-d without -k and -o");
  bin_case({D, opt_i("g.wenc", true), opt_k(KEY_OK)}, 0, "-d without -o");
  bin_case({D, opt_i("g.wenc", true), opt_o("out6", true)}, 0, "-d without -k");
  bin_case({V, opt_i("g.wenc", true)}, 0, "-v without -k");
  bin_case({D, opt_k(KEY_OK), opt_o("out7", true)}, 0, "-d without -i");
  bin_case({V}, 0, "-v alone"); bin_case({D}, 0, "-d alone"); bin_case({E}, 0, "-e alone");
  bin_case({D, opt_i("g.wenc", true), opt_o("-k", true), {"", {KEY_OK}}}, 0, "-o swallows -k");
  bin_case({E, D, opt_i("p.txt", true)}, 1, "two modes");
  bin_case({{"V", {"-V"}}}, 1, "version"); bin_case({{"h", {"-h"}}}, 1, "help");
  for (const char *c : {"-1", "5", "7", "255", "256", "257", "260", "300", "512", "-256", "65537", "abc", "4", "4294967297", "-4294967295", "4294967296", "99999999999999999999", "-99999999999999999999", "18446744073709551617"}) {
    bin_case({E, opt_i("p.txt", true), opt_o("out8", true), opt_c(c)}, 1, std::string("--cmode ") + c);
    long n = strtol(c, NULL, 10);
    if (n < 0 || n > 4) for (const char *md : {"-e", "-d", "-v"}) {   // property oracle: an out-of-range mode number is diagnosed, whatever the operation
      Run r = run_bin({md, "-i", md[1] == 'e' ? "p.txt" : "g.wenc", "-o", "outm", "-k", KEY_OK, "--cmode", c}); g_runs++;
      if (r.status == 0 || r.sig) emitA("bin", "C17", std::string("out-of-range --cmode ") + c + " with " + md + ": exit status " + S(r.status) + " signal " + S(r.sig) + " (expected a diagnostic and a non-zero status)");
    }
  }
  for (const char *h : {"3", "256", "258", "-255", "2", "4294967297", "-99999999999999999999", "8589934594"}) {
    bin_case({E, opt_i("p.txt", true), opt_o("out9", true), opt_h(h)}, 1, std::string("--hmode ") + h);
    long n = strtol(h, NULL, 10);
    if (n < 0 || n > 2) { Run r = run_bin({"-e", "-i", "p.txt", "-o", "outn", "--hmode", h}); g_runs++;
      if (r.status == 0 || r.sig) emitA("bin", "C17", std::string("out-of-range --hmode ") + h + ": exit status " + S(r.status) + " signal " + S(r.sig)); }
  }
  // property oracles for the other documented misuses: diagnostic (some output) and non-zero status, no signal
  { struct Mis { std::vector<std::string> a; const char *what; };
    std::vector<Mis> mis = { {{"-i", "p.txt"}, "no mode"}, {{"-e", "-d", "-i", "p.txt"}, "two modes"}, {{"-e"}, "missing input"}, {{"-e", "-i", "nope.txt"}, "input does not exist"},
      {{"-d", "-i", "g.wenc", "-o", "outo"}, "missing key for decryption"}, {{"-d", "-i", "g.wenc", "-k", KEY_OK}, "missing output for decryption"}, {{"-v", "-i", "g.wenc"}, "missing key for verification"},
      {{"-e", "-i", "p.txt", "-k", "AAAAAAAAAAAAAAAAAAAAAAAA"}, "malformed key text"}, {{"-e", "-i", "p.txt", "-k", "AAAAAAAAAAAAAAAAAAAAAAAAA=="}, "key text too long"}, {{"-e", "-i", long200}, "very long path with default output"},
      {{"-de", "-i", "g.wenc", "-k", KEY_OK, "-o", "outx"}, "two modes in one cluster (-de)"}, {{"-ve", "-i", "g.wenc", "-k", KEY_OK}, "two modes in one cluster (-ve)"}, {{"-he"}, "two modes in one cluster (-he)"},
      {{"-e", "-i", "p.txt", "-dn"}, "second mode inside a cluster"} };
    for (auto &m : mis) { Run r = run_bin(m.a); g_runs++; if (r.status == 0 || r.sig || r.out.empty()) emitA("bin", "C17", std::string(m.what) + ": exit status " + S(r.status) + " signal " + S(r.sig) + (r.out.empty() ? " without any diagnostic" : "")); } }
  for (const char *k : {"AAAAAAAAAAAAAAAAAAAAAAAA", "AAAAAAAAAAAAAAAAAAAAAAA=", "short", ""}) { bin_case({E, opt_i("p.txt", true), opt_o("outa", true), opt_k(k)}, 1, "malformed key"); bin_case({D, opt_i("g.wenc", true), opt_o("outb", true), opt_k(k)}, 1, "malformed key"); }
  { Run r = run_bin({"-en", "-i", "p.txt", "-o", "outc1", "-k", KEY_OK}); g_runs++; if (r.status != 0 || read_file("outc1").empty()) emitA("bin", "C17", "-en -i F -o G -k K (encrypt, no echo) failed: status " + S(r.status));
    Run d = run_bin({"-d", "-i", "g.wenc", "-k", KEY_OK, "-no", "outc2"}); g_runs++; if (d.status != 0 || read_file("outc2") != plain) emitA("bin", "C17", "-d -i F -k K -no G (decrypt, no echo, output G) failed: status " + S(d.status)); }
  // inputs that open but are not regular files: a directory, /dev/null, a FIFO with a writer that closes at once -- no crash, a definite exit status
  { mkdir("adir", 0755); mkfifo("afifo", 0600);
    for (const char *md : {"-e", "-d", "-v"}) for (const char *inp : {"adir", "/dev/null", "afifo"}) {
      pid_t wr = -1; if (!strcmp(inp, "afifo")) { wr = fork(); if (wr == 0) { int fd = open("afifo", O_WRONLY); if (fd >= 0) close(fd); _exit(0); } }
      Run r = run_bin({md, "-i", inp, "-o", "outs", "-k", KEY_OK}); g_runs++;
      if (wr > 0) { kill(wr, SIGKILL); int st; waitpid(wr, &st, 0); }
      if (r.sig || r.status == 99 || r.status == 98 || r.status == 134 || r.status == 139) emitA("bin", "C17", std::string("the program crashed (signal ") + S(r.sig) + ", status " + S(r.status) + ") on " + md + " -i " + inp + " (an input that opens but is not a regular file)");
      if (md[1] != 'e' && r.status == 0) emitA("bin", "C17", std::string(md) + " -i " + inp + " (not an encrypted file) exits 0");
    }
    unlink("afifo"); rmdir("adir"); }
  // `-v ... -o F`: verification produces no output (F is created by the parser but must stay empty)
  { unlink("vout"); Run r = run_bin({"-v", "-i", "g.wenc", "-k", KEY_OK, "-o", "vout"}); g_runs++;
    if (r.status != 0) emitA("bin", "C17", "-v -i F -k K -o G failed, status " + S(r.status));
    if (!read_file("vout").empty()) emitA("bin", "C12", "-v -i F -k K -o G wrote " + S((long)read_file("vout").size()) + " bytes to G: verification produces no output"); }
  bin_case({E, opt_i("p.txt", true), opt_o("nodir/x", false)}, 1, "unopenable output");
  bin_case({E, opt_i("p.txt", true), {"?", {"-x"}}}, 1, "unknown option");
  emitI("bin", "runs", S(g_runs));
}

// ---- C12 / C17: no operation modifies its input; the default output of `-e -i F` is F.wenc or a diagnostic, for every path length
// around the 128-byte name buffer and for names containing '%'
static void suite_intact(Rng &rng) {
  if (!getenv("WENCRY_BIN")) { emitI("intact", "skipped", "no WENCRY_BIN"); return; }
  bytes plain = rng.buf(333); long runs = 0;
  std::vector<std::string> names;
  for (size_t len : {1, 7, 60, 100, 117, 118, 119, 120, 121, 122, 123, 124, 125, 126, 127, 128, 129, 130, 131, 140, 200}) names.push_back(std::string(len, (char)('a' + len % 26)));
  for (const char *n : {"100%done.txt", "a%s%s%s%s%s%s.bin", "x%n.bin", "%", "p%d.txt", "50%%.dat", "%5c.wenc", "q%.200x"}) names.push_back(n);
  for (auto &name : names) {
    write_file(name, plain); std::string want = name + ".wenc"; unlink(want.c_str());
    std::vector<std::string> before; { DIR *d = opendir("."); struct dirent *e; while (d && (e = readdir(d))) before.push_back(e->d_name); if (d) closedir(d); }
    trace_case("intact", "-e -i <" + S((long)name.size()) + " characters: " + name.substr(0, 40) + "> -k K");
    Run r = run_bin({"-e", "-i", name, "-k", KEY_OK}); runs++;
    bool fits = name.size() + 5 < 128;
    if (r.sig || r.status == 99 || r.status == 98) emitA("intact", "C17", "the program crashed (signal " + S(r.sig) + ", status " + S(r.status) + ") on -e -i <" + name.substr(0, 60) + "> (" + S((long)name.size()) + " characters)");
    if (read_file(name) != plain) emitA("intact", "C12", "-e -i F without -o modified its input file F (" + S((long)name.size()) + " characters: " + name.substr(0, 60) + "): " + S((long)read_file(name).size()) + " bytes now, " + S((long)plain.size()) + " before");
    bytes enc = read_file(want);
    if (fits) {
      if (r.status != 0) emitA("intact", "C17", "-e -i F (" + S((long)name.size()) + " characters: " + name.substr(0, 60) + ") failed with status " + S(r.status));
      else if (enc.size() != 48 + 80 + 16 * (333 / 16 + 1)) emitA("intact", "C17", "-e -i F reported success but F.wenc was not written (F = " + name.substr(0, 60) + ", " + S((long)name.size()) + " characters; F.wenc has " + S((long)enc.size()) + " bytes)");
      else { unlink("intact.out"); Run d = run_bin({"-d", "-i", want, "-k", KEY_OK, "-o", "intact.out"}); runs++;
        if (d.status != 0 || read_file("intact.out") != plain) emitA("intact", "C17", "F.wenc written by -e -i F does not decrypt to F (F = " + name.substr(0, 60) + ")");
        if (read_file(want) != enc) emitA("intact", "C12", "-d modified its input file " + want.substr(0, 60));
        Run v = run_bin({"-v", "-i", want, "-k", KEY_OK}); runs++;
        if (v.status != 0) emitA("intact", "C17", "-v rejects the file written by -e -i F (F = " + name.substr(0, 60) + ")");
        if (read_file(want) != enc) emitA("intact", "C12", "-v modified its input file " + want.substr(0, 60)); }
    } else if (r.status == 0) emitA("intact", "C17", "-e -i F with a " + S((long)name.size()) + "-character path reported success although the default output name does not fit");
    // nothing else appeared in the directory except F.wenc
    { DIR *d = opendir("."); struct dirent *e; while (d && (e = readdir(d))) { std::string n = e->d_name; if (n == want || n == "intact.out") continue;
        if (std::find(before.begin(), before.end(), n) == before.end()) { emitA("intact", "C17", "-e -i F (" + S((long)name.size()) + " characters) created an unexpected file '" + n.substr(0, 80) + "' instead of F.wenc"); unlink(n.c_str()); } } if (d) closedir(d); }
    unlink(want.c_str()); unlink(name.c_str());
  }
  emitI("intact", "runs", S(runs));
}

// ---- C16 at the command line: what `-k` accepts is exactly a 24-character RFC 4648 key, decoded into the 16-byte buffer (ASan guards it)
static void suite_keyargs(Rng &rng) {
  std::string in_ok = "in.txt"; write_file(in_ok, rng.buf(30));
  std::vector<std::string> ks = {KEY_OK, KEY2, std::string(" ") + KEY_OK, std::string("  ") + KEY_OK, std::string("\t") + KEY_OK, std::string(KEY_OK) + " ", std::string(KEY_OK) + "\r\n", std::string(" ") + KEY_OK + " ",
    "ABEiM0RVZneImaq7zN3u/ww==", "ABEiM0RVZneImaq7zN3u/www==", "ABEiM0RVZneImaq7zN3u/wwww==", "ABEiM0RVZneImaq7zN3u/wwwww==", "ABEiM0RVZneImaq7zN3u/w=", "ABEiM0RVZneImaq7zN3u/w", "ABEiM0RVZneImaq7zN3u/w===", "ABEiM0RVZneImaq7zN3u=w==", "ABEi M0RVZneImaq7zN3u/w==", "", "=", "=="};
  for (int i = 0; i < 40; i++) { std::string k(24, 'A'); static const char *al = "ABCDEFGHIJKLMNOPQRSTUVWXYZabcdefghijklmnopqrstuvwxyz0123456789+/= \t-_"; for (auto &c : k) c = al[rng.below(69)]; if (i % 2) { k[22] = '='; k[23] = '='; } ks.push_back(k); }
  long n = 0;
  for (auto &k : ks) for (int md = 0; md < 2; md++) { n++;
    std::vector<Opt> o = { md ? Opt{"d", {"-d"}} : Opt{"e", {"-e"}}, opt_i(in_ok, true), opt_k(k, md == 1), opt_o("out.bin", true) };
    std::vector<std::string> args; std::string toks; for (auto &x : o) { for (auto &w : x.argv) args.push_back(w); toks += " " + x.tok; }
    trace_case("keyargs", "key argument [" + k + "]");
    std::string real = real_parse(args, true); restore_scratch_simple();
    emitM("keyargs", "cli 1" + toks, real); }
  emitI("keyargs", "key_arguments", S(n));
}


// ---- C18 (and the format of C02) through the interactive dialogue (`Wencry` without arguments): the seed the user types is the seed of
// the IV chain. The answers are piped in; the file written must be the specification's file for (key, typed seed, plaintext, modes, T = 4).
#ifndef WENCRY_VERIF_BUF_SZ
#error "build with -DWENCRY_VERIF_BUF_SZ"
#endif
static std::string b64_text(const unsigned char *k, size_t n) { static const char *al = "ABCDEFGHIJKLMNOPQRSTUVWXYZabcdefghijklmnopqrstuvwxyz0123456789+/"; std::string o;
  for (size_t i = 0; i < n; i += 3) { unsigned v = k[i] << 16 | (i + 1 < n ? k[i + 1] << 8 : 0) | (i + 2 < n ? k[i + 2] : 0);
    o += al[v >> 18]; o += al[(v >> 12) & 63]; o += i + 1 < n ? al[(v >> 6) & 63] : '='; o += i + 2 < n ? al[v & 63] : '='; }
  return o; }
static void suite_dialog(Rng &rng) {
  if (!getenv("WENCRY_BIN")) { emitI("dialog", "skipped", "no WENCRY_BIN"); return; }
  long runs = 0; static const char *al = "abcdefghijklmnopqrstuvwxyzABCDEFGHIJKLMNOPQRSTUVWXYZ0123456789!#$%&()*+,-./:;<=>?@[]^_{|}~";
  auto seed_of = [&](size_t len) { std::string sd(len, 'x'); for (auto &c : sd) c = al[rng.below((uint32_t)strlen(al))]; return sd; };
  int cfg = 0;
  for (int c = 0; c <= 4; c++) for (int h = 0; h <= 2; h++) { cfg++; if (!tier_thorough() && c != 0 && (c + h) % 2 == 1 && c != 4) continue;
    bytes key = rng.buf(16); std::string ktxt = b64_text(key.data(), 16); bytes plain = rng.buf(cfg % 4 == 0 ? 0 : 1 + rng.below(200));
    write_file("dlg.txt", plain);
    std::vector<std::string> seeds = { seed_of(1 + rng.below(12)), seed_of(1 + rng.below(12)), seed_of(30 + rng.below(170)) }; seeds.push_back(seeds[0]);
    std::vector<bytes> files;
    for (auto &sd : seeds) {
      std::string in = "e\ndlg.txt\nn\n" + ktxt + "\n" + S(c) + "\n" + S(h) + "\n" + (c != 0 ? sd + "\n" : std::string());
      write_file("dlg.in", bytes(in.begin(), in.end())); unlink("dlg.txt.wenc");
      trace_case("dialog", "interactive encryption c=" + S(c) + " h=" + S(h) + " key=" + ktxt + " seed=[" + sd + "] plaintext=" + hex(plain));
      Run r = run_bin({}, "dlg.in"); runs++;
      if (r.sig || r.status == 99 || r.status == 98) { emitA("dialog", "C18", "the interactive encryption crashed (signal " + S(r.sig) + ", status " + S(r.status) + "), answers: " + hexs(in)); files.push_back(bytes()); continue; }
      bytes f = read_file("dlg.txt.wenc"); files.push_back(f);
      if (r.status != 0) { emitA("dialog", "C18", "the interactive encryption failed with status " + S(r.status) + ", answers: " + hexs(in)); continue; }
      // ECB: the dialogue asks for no seed and the IV area is unspecified (the code hashes whatever the fresh parameter block holds);
      // C18 speaks about the non-ECB modes, so only the round trip below is checked there
      if (c != 0) emitO("dialog", "senc 4 " + S(WENCRY_VERIF_BUF_SZ) + " " + S(c) + " " + S(h) + " " + hex(key) + " " + hexs(sd) + " " + hex(plain), hex(f));
    }
    if (c != 0 && files[0].size() >= 48 + 80 && files[1].size() >= 48 + 80 && seeds[0] != seeds[1] && std::equal(files[0].begin() + 48, files[0].begin() + 128, files[1].begin() + 48))
      emitA("dialog", "C18", "two interactive encryptions with different typed seeds [" + seeds[0] + "] and [" + seeds[1] + "] store the same IVs (c=" + S(c) + " h=" + S(h) + " key=" + ktxt + "): the typed seed does not reach the IV chain");
    if (c != 0 && files[0] != files[3]) emitA("dialog", "C18", "two interactive encryptions with the same key, seed [" + seeds[0] + "] and plaintext give different files (c=" + S(c) + " h=" + S(h) + ")");
    // the dialogue's decryption restores the plaintext under the default name F.wdec
    if (!files[2].empty()) { write_file("dlg.txt.wenc", files[2]); std::string in = "d\ndlg.txt.wenc\nn\n" + ktxt + "\n"; write_file("dlg.in", bytes(in.begin(), in.end())); unlink("dlg.txt.wenc.wdec");
      trace_case("dialog", "interactive decryption c=" + S(c) + " h=" + S(h) + " key=" + ktxt);
      Run d = run_bin({}, "dlg.in"); runs++;
      if (d.sig || d.status != 0 || read_file("dlg.txt.wenc.wdec") != plain) emitA("dialog", "C18", "the file written by the interactive encryption (seed [" + seeds[2] + "], c=" + S(c) + " h=" + S(h) + ") is not restored by the interactive decryption: status " + S(d.status) + " signal " + S(d.sig)); }
  }
  emitI("dialog", "runs", S(runs));
}

// ---- the dialogue against its Lean model (Model/Dialog.lean, command `dlg`): the real get_v_mod1() runs in a forked child whose standard
// input is the generated script; what it hands to main (mode, input file, key, modes, seed string, output name) is compared with the model.
// The generator stays inside the fragment the model covers (retries after unknown files / invalid key texts / invalid mode numbers, blanks
// and tabs before tokens, upper-case answers) — outside it the real code reads uninitialised variables or never returns.
static void suite_dlgparse(Rng &rng) {
  mkdir("sub", 0755); write_file("dlg.txt", rng.buf(40)); write_file("sub/in.bin", rng.buf(20));
  long cases = 0; static const char *wsv[] = {"\n", " ", "\t", "\n\n", " \n", "\r\n"};
  auto ws = [&]() { return std::string(wsv[rng.below(6)]); };
  auto valid_key = [&](bytes &raw) { raw = rng.buf(16); return b64_text(raw.data(), 16); };
  static const char *badkeys[] = {"short", "AAAAAAAAAAAAAAAAAAAAAAAA", "AAAAAAAAAAAAAAAAAAAAAAA=", "ABEiM0RVZneImaq7zN3u/ww==", "====", "ABEi*0RVZneImaq7zN3u/w=="};
  static const char *badmodes[] = {"7", "-1", "abc", "9 9", "5x", "-", "99", "+8", "x3"};
  int total = tier_thorough() ? 1500 : 260;
  for (int it = 0; it < total; it++) {
    char mode = "eEdDv"[rng.below(5)]; std::string in(1, mode); in += (rng.below(3) ? "\n" : (rng.below(2) ? " " : ""));
    for (int k = rng.below(3); k > 0; k--) in += std::string(rng.below(2) ? "nope.txt" : "sub/none") + ws();
    std::string file = rng.below(2) ? "dlg.txt" : "sub/in.bin"; in += (rng.below(4) ? "" : " ") + file + "\n"; for (int k = rng.below(3); k > 0; k--) in += "\n";
    bool is_e = mode == 'e' || mode == 'E', is_d = mode == 'd' || mode == 'D'; bytes raw; bool random_key = false; std::string outname;
    auto key_part = [&]() { for (int k = rng.below(3); k > 0; k--) in += std::string(badkeys[rng.below(6)]) + ws(); in += valid_key(raw) + ws(); };
    auto mode_part = [&](int maxv) { for (int k = rng.below(3); k > 0; k--) in += std::string(badmodes[rng.below(9)]) + "\n"; int v = rng.below(maxv + 1);
      static const char *pre[] = {"", " ", "+", "0", "\t"}; in += std::string(pre[rng.below(5)]) + S(v) + (rng.below(4) ? "\n" : " trailing words\n"); return v; };
    int c = -1, h = -1; std::string seed;
    if (is_e) { char flag = "nyNYx"[rng.below(5)]; in += flag; in += ws(); random_key = flag == 'y' || flag == 'Y'; if (!random_key) key_part();
      c = mode_part(4); h = mode_part(2);
      if (c != 0) { static const char *al = "abcXYZ019!#%+/=_-.,;:"; seed = std::string(1 + rng.below(it % 7 == 0 ? 250 : 20), 'x'); for (auto &ch : seed) ch = al[rng.below(21)]; in += (rng.below(3) ? "" : "  ") + seed + (rng.below(3) ? "\n" : " more\n"); } }
    else if (is_d) { char flag = "nyNYq"[rng.below(5)]; in += flag; in += ws(); if (flag == 'y' || flag == 'Y') { outname = rng.below(2) ? "dlg.newname" : "sub/restored.bin"; in += outname + ws(); } key_part(); }
    else key_part();
    write_file("dlg.in", bytes(in.begin(), in.end()));
    trace_case("dlgparse", "dialogue input " + hexs(in));
    int pp[2]; if (pipe(pp) != 0) abort(); fflush(g_proto);
    pid_t pid = fork();
    if (pid == 0) { close(pp[0]); int fd = open("dlg.in", O_RDONLY); dup2(fd, 0); close(fd); alarm(10);
      vpak_t *p = (vpak_t *)get_v_mod1();
      std::string r = S((long)(unsigned char)p->mode) + " " + (p->fp ? hexs(fdpath(p->fp)) : std::string("null")) + " " + (random_key ? std::string("*") : (p->key ? hex(p->key, 16) : std::string("null"))) + " " +
        S((long)p->ctype) + " " + S((long)p->htype) + " " + ((is_e && p->ctype != 0) ? hexs(std::string((const char *)p->r_buf)) : std::string("?")) + " " + (p->out ? hexs(fdpath(p->out)) : std::string("null")) + "\n";
      ssize_t w = write(pp[1], r.data(), r.size()); (void)w; _exit(0); }
    close(pp[1]); std::string res; { char buf[4096]; ssize_t n; while ((n = read(pp[0], buf, sizeof buf)) > 0) res.append(buf, n); } close(pp[0]);
    int st = 0; waitpid(pid, &st, 0); cases++;
    for (const char *f : {"dlg.txt.wenc", "in.bin.wenc", "dlg.txt.wdec", "in.bin.wdec", "dlg.newname", "sub/restored.bin"}) unlink(f);
    if (!WIFEXITED(st) || WEXITSTATUS(st) != 0 || res.empty()) { emitA("dlgparse", "C18", "the dialogue crashed or did not return (wait status " + S(st) + ") on the input " + hexs(in)); continue; }
    res.pop_back();
    emitM("dlgparse", "dlg " + hexs(in) + " " + hexs("dlg.txt") + " " + hexs("sub/in.bin"), res);
  }
  emitI("dlgparse", "dialogues", S(cases));
}

// ---- C06 at the command line: the key the user TYPES. Every key text that denotes other 16 bytes than the right key must be refused by -v
// and -d: all 128 one-bit neighbours and all neighbours that differ in one base64 symbol by one alphabet position ('/' for '+', 'a' for 'Z', ...)
static void suite_keywrong(Rng &rng) {
  if (!getenv("WENCRY_BIN")) { emitI("keywrong", "skipped", "no WENCRY_BIN"); return; }
  static const char *al = "ABCDEFGHIJKLMNOPQRSTUVWXYZabcdefghijklmnopqrstuvwxyz0123456789+/";
  std::vector<bytes> keys = { bytes(16, 0xff), rng.buf(16) }; { bytes k(16); for (int i = 0; i < 16; i++) k[i] = (unsigned char)("\xfb\xef\xbe"[i % 3]); keys.push_back(k); }
  { bytes k(16); for (int i = 0; i < 16; i++) k[i] = (unsigned char)("\x01\x96\xb3\xd3\xdf\xbf"[i % 6]); keys.push_back(k); }   // text "AZaz09+/AZaz09+/AZaz0w==": the symbols at the ends of the alphabet runs
  if (tier_thorough()) for (int i = 0; i < 4; i++) keys.push_back(rng.buf(16));
  bytes plain = rng.buf(100); write_file("kw.txt", plain); long runs = 0, tried = 0;
  for (size_t ki = 0; ki < keys.size(); ki++) { const bytes &key = keys[ki]; std::string ktxt = b64_text(key.data(), 16);
    unlink("kw.wenc"); Run e = run_bin({"-e", "-i", "kw.txt", "-k", ktxt, "-o", "kw.wenc", "--cmode", S((long)(ki % 5)), "--hmode", S((long)(ki % 3))}); runs++;
    if (e.status != 0) { emitA("keywrong", "C06", "-e with the key text " + ktxt + " failed, status " + S(e.status)); continue; }
    { Run v = run_bin({"-v", "-i", "kw.wenc", "-k", ktxt}); runs++; if (v.status != 0) emitA("keywrong", "C06", "-v with the right key text " + ktxt + " fails, status " + S(v.status)); }
    std::vector<std::string> wrong;
    for (int bit = 0; bit < 128; bit++) { bytes k2 = key; k2[bit / 8] ^= (unsigned char)(0x80 >> (bit % 8)); wrong.push_back(b64_text(k2.data(), 16)); }
    for (int pos = 0; pos < 21; pos++) for (int dlt : {-1, 1}) { const char *q = strchr(al, ktxt[pos]); if (!q) continue; int idx = (int)(q - al) + dlt; if (idx < 0 || idx > 63) continue; std::string t = ktxt; t[pos] = al[idx]; wrong.push_back(t); }
    for (size_t w = 0; w < wrong.size(); w++) { if (wrong[w] == ktxt) continue; tried++;
      trace_case("keywrong", "file encrypted with -k " + ktxt + ", verified with -k " + wrong[w]);
      Run v = run_bin({"-v", "-i", "kw.wenc", "-k", wrong[w]}); runs++;
      if (v.sig) emitA("keywrong", "C06", "-v crashed (signal " + S(v.sig) + ") with the key text " + wrong[w]);
      else if (v.status == 0) { emitA("keywrong", "C06", "wrong key accepted at the command line: the file was encrypted with -k " + ktxt + " and -v accepts -k " + wrong[w] + " (a different 16-byte key)");
        unlink("kw.out"); Run d = run_bin({"-d", "-i", "kw.wenc", "-k", wrong[w], "-o", "kw.out"}); runs++;
        if (d.status == 0) emitA("keywrong", "C06", "-d accepts the wrong key text " + wrong[w] + " as well and writes " + S((long)read_file("kw.out").size()) + " bytes"); }
      else if (w % 16 == 3) { unlink("kw.out"); Run d = run_bin({"-d", "-i", "kw.wenc", "-k", wrong[w], "-o", "kw.out"}); runs++;
        if (d.status == 0 || !read_file("kw.out").empty()) emitA("keywrong", "C06", "-d with the wrong key text " + wrong[w] + ": status " + S(d.status) + ", " + S((long)read_file("kw.out").size()) + " bytes written"); } }
  }
  emitI("keywrong", "wrong_key_texts", S(tried)); emitI("keywrong", "runs", S(runs));
}

int main(int argc, char **argv) {
  proto_init();
  long seed = env_long("VERIF_SEED", 1);
  std::string which = argc > 1 ? argv[1] : "all";
  Rng rng((uint64_t)seed * 7919 + 17);
  // private scratch directory next to the binary (not under /tmp), removed at the end
  char tmpl[PATH_MAX]; std::string base = argv[0]; base = base.substr(0, base.rfind('/'));
  snprintf(tmpl, sizeof tmpl, "%s/scratch_cli_XXXXXX", base.c_str());
  if (!mkdtemp(tmpl)) { perror("mkdtemp"); return 2; }
  scratch = tmpl;
  if (chdir(tmpl) != 0) return 2;
  mkdir("sub", 0755);
  if (which == "parse" || which == "all") suite_parse(rng);
  if (which == "bin" || which == "all") suite_bin(rng);
  if (which == "parsehist") suite_parsehist(rng);
  if (which == "argvhist") suite_argvhist(rng);
  if (which == "intact") suite_intact(rng);
  if (which == "keyargs") suite_keyargs(rng);
  if (which == "dialog") suite_dialog(rng);
  if (which == "dlgparse") suite_dlgparse(rng);
  if (which == "keywrong") suite_keywrong(rng);
  fflush(g_proto);
  if (chdir("/") != 0) return 2;
  std::string cmd = "rm -rf '" + scratch + "'"; int rc = system(cmd.c_str()); (void)rc;
  return 0;
}
