// Common helpers of the correspondence harness (C++17, Linux).
#pragma once
#include <errno.h>
#include <stdio.h>
#include <stdlib.h>
#include <string.h>
#include <stdint.h>
#include <unistd.h>
#include <fcntl.h>
#include <sys/mman.h>
#include <sys/stat.h>
#include <sys/wait.h>
#include <string>
#include <vector>
#include <functional>
#include <algorithm>

typedef std::vector<unsigned char> bytes;

// ---- protocol output: the real code chatters on stdout, so the protocol goes to a private stream ----
static FILE *g_proto = nullptr;
static inline void proto_init() {
  int fd = dup(1);
  g_proto = fdopen(fd, "w");
  setvbuf(g_proto, nullptr, _IOFBF, 1 << 20);
  int nul = open("/dev/null", O_WRONLY);
  dup2(nul, 1);
  close(nul);
}
static inline std::string hex(const unsigned char *p, size_t n) {
  static const char *d = "0123456789abcdef";
  if (n == 0) return "-";
  std::string s; s.resize(2 * n);
  for (size_t i = 0; i < n; i++) { s[2 * i] = d[p[i] >> 4]; s[2 * i + 1] = d[p[i] & 15]; }
  return s;
}
static inline std::string hex(const bytes &b) { return hex(b.data(), b.size()); }
static inline std::string hexs(const std::string &s) { return hex((const unsigned char *)s.data(), s.size()); }
static inline bytes unhex(const std::string &s) {
  bytes b; if (s == "-") return b;
  for (size_t i = 0; i + 1 < s.size(); i += 2) b.push_back((unsigned char)strtol(s.substr(i, 2).c_str(), nullptr, 16));
  return b;
}
// M: compare with the model; O: compare with the specification (property oracle);
// A: the harness itself observed a property violation; K: a known finding reproduced; I: information
static inline void emitM(const char *suite, const std::string &req, const std::string &real) { fprintf(g_proto, "M\t%s\t%s\t%s\n", suite, req.c_str(), real.c_str()); }
static inline void emitO(const char *suite, const std::string &req, const std::string &real) { fprintf(g_proto, "O\t%s\t%s\t%s\n", suite, req.c_str(), real.c_str()); }
static inline void emitA(const char *suite, const std::string &prop, const std::string &desc) { fprintf(g_proto, "A\t%s\t%s\t%s\n", suite, prop.c_str(), desc.c_str()); }
static inline void emitK(const char *suite, const std::string &id, const std::string &desc) { fprintf(g_proto, "K\t%s\t%s\t%s\n", suite, id.c_str(), desc.c_str()); }
// T: case marker, only with VERIF_TRACE=1 (used to locate the input on which the real code crashed).
// Every case also re-arms a watchdog: if the real code does not come back within 45 s the harness reports the case as a hang
// (H line) and exits with status 97.
#include <signal.h>
static char g_last_case[1 << 16];
static inline bool tracing() { static int t = -1; if (t < 0) { const char *v = getenv("VERIF_TRACE"); t = (v && *v == '1') ? 1 : 0; } return t == 1; }
static inline void wv_on_alarm(int) {
  const char *pre = "H\thang\t-\t"; int fd = g_proto ? fileno(g_proto) : 2;
  fflush(g_proto);
  ssize_t r = write(fd, pre, strlen(pre)); r = write(fd, g_last_case, strlen(g_last_case)); r = write(fd, "\n", 1); (void)r;
  _exit(97);
}
static inline void trace_case(const char *suite, const std::string &desc) {
  static bool installed = false;
  if (!installed) { signal(SIGALRM, wv_on_alarm); installed = true; }
  snprintf(g_last_case, sizeof g_last_case, "%s: %s", suite, desc.c_str());
  alarm(45);
  if (tracing()) { fprintf(g_proto, "T\t%s\t-\t%s\n", suite, desc.c_str()); fflush(g_proto); }
}
static inline void emitI(const char *suite, const std::string &key, const std::string &val) { fprintf(g_proto, "I\t%s\t%s\t%s\n", suite, key.c_str(), val.c_str()); }

// ---- one PRNG for every random choice ----
struct Rng {
  uint64_t s;
  explicit Rng(uint64_t seed) : s(seed * 0x9E3779B97F4A7C15ull + 0x1234567ull) {}
  uint64_t next() { uint64_t z = (s += 0x9E3779B97F4A7C15ull); z = (z ^ (z >> 30)) * 0xBF58476D1CE4E5B9ull; z = (z ^ (z >> 27)) * 0x94D049BB133111EBull; return z ^ (z >> 31); }
  uint32_t below(uint32_t n) { return n ? (uint32_t)(next() % n) : 0; }
  bytes buf(size_t n) { bytes b(n); for (auto &x : b) x = (unsigned char)next(); return b; }
  // plaintext-like data aimed at the pad-stripping logic: about half of the bytes at the end of a 16-byte block are 1..16
  bytes padlike(size_t n) { bytes b = buf(n); for (size_t i = 15; i < n; i += 16) if (next() & 1) b[i] = (unsigned char)(1 + next() % 16); return b; }
  // a 16-byte key; every other call contains a zero byte (C strings end there)
  // one call in four (once a key has been drawn) returns a NEIGHBOUR of the previous key of this process: same first half, same last
  // half, one bit or one byte changed — state remembered across operations by PART of the key (a cached key schedule compared on 8 of its
  // 16 bytes, a hash of the key, a checksum) only shows up when two such keys follow each other in one process (seed C02-r8)
  bytes last_key;
  bytes key16() {
    bytes k = buf(16); if (next() & 1) k[next() % 16] = 0; if (next() % 8 == 0) k[0] = 0;
    if (last_key.size() == 16 && next() % 4 == 0) {
      bytes f = k; k = last_key;
      switch (next() % 4) {
        case 0: for (int i = 8; i < 16; i++) k[i] = f[i]; break;
        case 1: for (int i = 0; i < 8; i++) k[i] = f[i]; break;
        case 2: k[next() % 16] ^= (unsigned char)(1u << (next() % 8)); break;
        default: { size_t i = next() % 16; k[i] = (unsigned char)(k[i] + 1 + next() % 255); } break;
      }
    }
    last_key = k; return k; }
  // NUL-free bytes
  bytes nzbuf(size_t n) { bytes b(n); for (auto &x : b) x = (unsigned char)(1 + next() % 255); return b; }
};

// ---- in-memory regular files (memfd): real FILE* streams the code may fclose ----
struct MemFile {
  int fd = -1;
  MemFile() { fd = memfd_create("wv", 0); }
  explicit MemFile(const bytes &b) { fd = memfd_create("wv", 0); if (!b.empty()) { ssize_t r = write(fd, b.data(), b.size()); (void)r; } lseek(fd, 0, SEEK_SET); }
  ~MemFile() { if (fd >= 0) close(fd); }
  MemFile(const MemFile &) = delete;
  FILE *openr() { int d = dup(fd); lseek(d, 0, SEEK_SET); return fdopen(d, "rb"); }
  FILE *openw() { int d = dup(fd); lseek(d, 0, SEEK_SET); return fdopen(d, "wb+"); }
  bytes contents() { struct stat st; fstat(fd, &st); bytes b(st.st_size); if (st.st_size) { ssize_t r = pread(fd, b.data(), b.size(), 0); (void)r; } return b; }
};

// ---- streams with injected I/O faults (fopencookie): a readable stream over a byte string whose reads fail with EIO once `fail_after`
// bytes in total have been delivered (seeks allowed), and a writable stream that accepts `limit` bytes and then fails with ENOSPC ----
struct FaultIn { bytes data; size_t pos = 0; long delivered = 0; long fail_after = -1; long faults = 0; };
static ssize_t faultin_read(void *c, char *buf, size_t n) { FaultIn *f = (FaultIn *)c;
  if (f->fail_after >= 0 && f->delivered >= f->fail_after) { f->faults++; errno = EIO; return -1; }
  size_t avail = f->pos < f->data.size() ? f->data.size() - f->pos : 0; if (n > avail) n = avail;
  if (f->fail_after >= 0 && f->delivered + (long)n > f->fail_after) n = (size_t)(f->fail_after - f->delivered);
  if (n) memcpy(buf, f->data.data() + f->pos, n); f->pos += n; f->delivered += (long)n; return (ssize_t)n; }
static int faultin_seek(void *c, off64_t *off, int whence) { FaultIn *f = (FaultIn *)c; long base = whence == SEEK_SET ? 0 : whence == SEEK_CUR ? (long)f->pos : (long)f->data.size();
  long np = base + (long)*off; if (np < 0) return -1; f->pos = (size_t)np; *off = np; return 0; }
static inline FILE *open_fault_in(FaultIn *f) { cookie_io_functions_t io = {faultin_read, NULL, faultin_seek, NULL}; return fopencookie(f, "rb", io); }
struct FaultOut { bytes data; size_t pos = 0; long limit = -1; long faults = 0; };
static ssize_t faultout_write(void *c, const char *buf, size_t n) { FaultOut *f = (FaultOut *)c;
  if (f->limit >= 0 && (long)(f->pos + n) > f->limit) { f->faults++; errno = ENOSPC; return 0; }
  if (f->pos + n > f->data.size()) f->data.resize(f->pos + n); memcpy(f->data.data() + f->pos, buf, n); f->pos += n; return (ssize_t)n; }
static int faultout_seek(void *c, off64_t *off, int whence) { FaultOut *f = (FaultOut *)c; long base = whence == SEEK_SET ? 0 : whence == SEEK_CUR ? (long)f->pos : (long)f->data.size();
  long np = base + (long)*off; if (np < 0) return -1; f->pos = (size_t)np; *off = np; return 0; }
static ssize_t faultout_read(void *c, char *buf, size_t n) { FaultOut *f = (FaultOut *)c; size_t avail = f->pos < f->data.size() ? f->data.size() - f->pos : 0; if (n > avail) n = avail; if (n) memcpy(buf, f->data.data() + f->pos, n); f->pos += n; return (ssize_t)n; }
static inline FILE *open_fault_out(FaultOut *f) { cookie_io_functions_t io = {faultout_read, faultout_write, faultout_seek, NULL}; return fopencookie(f, "wb+", io); }

static inline long env_long(const char *name, long dflt) { const char *v = getenv(name); return v && *v ? atol(v) : dflt; }
static inline bool tier_thorough() { const char *v = getenv("VERIF_TIER"); return v && strcmp(v, "thorough") == 0; }
